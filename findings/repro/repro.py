"""Failing inputs for the genuine defects found by the static rules (triage evidence, never run by a check).
usage: /venv/bin/python repro.py [ID ...]      (IDs: F-01 .. F-12, K-01 .. K-13)
Each function returns a short description of the observed misbehaviour or raises the observed exception."""
import signal, sys, traceback
import ciw
inf = float("inf")
D, E, S = ciw.dists.Deterministic, ciw.dists.Exponential, ciw.dists.Sequential

def _steps(Q, n):
    nxt = Q.find_next_active_node(); Q.current_time = nxt.next_event_date
    for _ in range(n):
        t0 = Q.current_time
        nxt = Q.event_and_return_nextnode(nxt); Q.current_time = nxt.next_event_date
        yield t0, Q.current_time, nxt

def F_01():  # C14  Node.next_class_change_ind never initialised
    N = ciw.create_network(arrival_distributions={'A': [E(2), None], 'B': [E(2), None]},
        service_distributions={'A': [E(3), E(3)], 'B': [E(3), E(3)]}, number_of_servers=[1, 1],
        routing={'A': [[0.0, 0.5], [0.0, 0.0]], 'B': [[0.0, 0.5], [0.0, 0.0]]},
        class_change_time_distributions={'A': {'B': E(1)}})
    ciw.seed(0); ciw.Simulation(N).simulate_until_max_time(50)

def F_02():  # C07/C14  overtime customer finishing in a 0-server shift and blocked: same end_service fires forever
    N = ciw.create_network(arrival_distributions=[S([4.0, 1000]), S([1.0, 0.5, 1000])],
        service_distributions=[D(3.0), D(20.0)],
        number_of_servers=[ciw.Schedule(numbers_of_servers=[1, 0], shift_end_dates=[5, 100]), 1],
        queue_capacities=[inf, 0], routing=[[0.0, 1.0], [0.0, 0.0]])
    Q = ciw.Simulation(N); same = 0
    for t0, t1, nxt in _steps(Q, 60):
        same = same + 1 if (t0 == t1 == 7.0) else 0
    return "events stuck at t=7.0: %d, blocked_queue len %d" % (same, len(Q.nodes[2].blocked_queue))

def F_03():  # C03  renege record names destination False although the customer jockeys to node 2
    class Jockey(ciw.routing.Leave):
        def next_node_for_jockeying(self, ind): return self.simulation.nodes[2]
    N = ciw.create_network(arrival_distributions=[D(7), None], service_distributions=[D(11), D(2)],
        routing=ciw.routing.NetworkRouting(routers=[Jockey(), ciw.routing.Leave()]), number_of_servers=[1, 1],
        reneging_time_distributions=[D(3), None])
    Q = ciw.Simulation(N); Q.simulate_until_max_time(20)
    return [(r.id_number, r.node, r.record_type, r.destination) for r in Q.get_all_records()]

def F_04():  # C10  negative service sample silently accepted at an ordinary node
    class Neg(ciw.dists.Distribution):
        def sample(self, t=None, ind=None): return -1.0
    N = ciw.create_network(arrival_distributions=[D(1.0)], service_distributions=[Neg()], number_of_servers=[1])
    Q = ciw.Simulation(N); Q.simulate_until_max_time(10.0)
    return [r.service_time for r in Q.get_all_records()][:3]

def F_05():  # C20  exact mode: Server.busy_time starts as float 0.0 and meets Decimal (wrap_up_servers +=, utilisation sum)
    out = []
    for servers, service, T in ((1, 5.0, 3.0), (2, 1.0, 23.5)):      # busy at horizon / second server never used
        N = ciw.create_network(arrival_distributions=[D(3.0 if servers == 2 else 1.0)], service_distributions=[D(service)],
                               number_of_servers=[servers])
        try: ciw.Simulation(N, exact=12).simulate_until_max_time(T); out.append("ok")
        except TypeError as e: out.append("TypeError: %s" % e)
    return out

def F_06():  # C20/C13  exact mode: Decimal + float reneging sample
    N = ciw.create_network(arrival_distributions=[E(5.0)], service_distributions=[E(1.0)], number_of_servers=[1],
        reneging_time_distributions=[E(1.0)])
    ciw.seed(1); ciw.Simulation(N, exact=12).simulate_until_max_time(30.0)

def F_07():  # C14  simulate_until_max_customers when the count is already reached
    N = ciw.create_network(arrival_distributions=[E(1.0)], service_distributions=[E(2.0)], number_of_servers=[1])
    ciw.seed(0); Q = ciw.Simulation(N); Q.simulate_until_max_customers(5); Q.simulate_until_max_customers(5)

def F_08():  # C20  exact mode: Decimal(float) of a schedule boundary leaks binary drift into the records
    N = ciw.create_network(arrival_distributions=[D(0.05)], service_distributions=[D(0.3)],
        number_of_servers=[ciw.Schedule(numbers_of_servers=[0, 1], shift_end_dates=[0.1, 10.1])])
    Q = ciw.Simulation(N, exact=30); Q.simulate_until_max_time(2)
    return [(r.service_start_date, r.service_end_date) for r in Q.get_all_records()][:2]

def F_09():  # C14/C01  class change after service (changing priority) then renege at the next node
    cc = [{'A': {'A': 0.0, 'B': 1.0}, 'B': {'A': 0.0, 'B': 1.0}}, {'A': {'A': 1.0, 'B': 0.0}, 'B': {'A': 0.0, 'B': 1.0}}]
    N = ciw.create_network(arrival_distributions={'A': [E(2.0), None], 'B': [None, None]},
        service_distributions={'A': [E(4.0), E(1.0)], 'B': [E(4.0), E(1.0)]}, number_of_servers=[1, 1],
        routing={'A': [[0.0, 1.0], [0.0, 0.0]], 'B': [[0.0, 1.0], [0.0, 0.0]]}, priority_classes={'A': 0, 'B': 1},
        class_change_matrices=cc, reneging_time_distributions={'A': [None, D(0.3)], 'B': [None, D(0.3)]})
    ciw.seed(0); ciw.Simulation(N).simulate_until_max_time(50)

def F_10():  # C14/C12  stale `interrupted` flag after a slotted restart: ValueError when the customer is later unblocked
    N = ciw.create_network(arrival_distributions=[S([0.5, 0.1, inf]), S([0.2, inf])], service_distributions=[D(5.0), D(10.0)],
        number_of_servers=[ciw.Slotted(slots=[1.0, 2.0, 3.0, 100.0], slot_sizes=[2, 1, 2, 2], capacitated=True, preemption='resume'), 1],
        queue_capacities=[inf, 0], routing=[[0.0, 1.0], [0.0, 0.0]])
    ciw.Simulation(N).simulate_until_max_time(200)

def F_11():  # C13/C14  reneging customer stays cached as the next class changer: class-change event for a departed customer
    N = ciw.create_network(arrival_distributions={'A': [E(1.0)], 'B': [E(1.0)]}, service_distributions={'A': [E(0.8)], 'B': [E(0.8)]},
        number_of_servers=[1], priority_classes={'A': 0, 'B': 1}, reneging_time_distributions={'A': [D(1.0)], 'B': [D(1.0)]},
        class_change_time_distributions={'A': {'B': D(1.5)}, 'B': {'A': D(1.5)}})
    ciw.seed(0); Q = ciw.Simulation(N); Q.simulate_until_max_time(200)
    return "ran to %s" % Q.current_time

def F_12():  # C20  exact arithmetic + progress bar: Decimal increment reaches tqdm's float arithmetic
    N = ciw.create_network(arrival_distributions=[E(1.0)], service_distributions=[E(2.0)], number_of_servers=[1])
    ciw.seed(0); Q = ciw.Simulation(N, exact=26); Q.simulate_until_max_time(20, progress_bar=True)
    return "ran to %s" % Q.current_time

def K_01():  # C14  priority pre-emption decided on a node with no servers (class change while waiting)
    N = ciw.create_network(arrival_distributions={'A': [E(2)], 'B': [E(2)]}, service_distributions={'A': [E(3)], 'B': [E(3)]},
        number_of_servers=[0], priority_classes=({'A': 0, 'B': 1}, ['resample']),
        class_change_time_distributions={'B': {'A': D(0.7)}})
    ciw.seed(0); Q = ciw.Simulation(N)
    for nd in Q.transitive_nodes: nd.next_class_change_ind = None      # step over F-01
    Q.simulate_until_max_time(50)

def K_02():  # C04/C14  victim on an off-duty (overtime) server: newcomer attached to a killed server, never served
    N = ciw.create_network(arrival_distributions={'A': [S([5.2, 0.3, 1000])], 'B': [S([4.0, 1000])]},
        service_distributions={'A': [D(2.0)], 'B': [D(3.0)]},
        number_of_servers=[ciw.Schedule(numbers_of_servers=[1, 1], shift_end_dates=[5, 10])],
        priority_classes=({'A': 0, 'B': 1}, ['resume']))
    Q = ciw.Simulation(N); Q.simulate_until_max_time(30); nd = Q.nodes[1]
    return "still at node at t=30: %s on %s; node.servers=%s" % (nd.all_individuals, [i.server for i in nd.all_individuals], nd.servers)

def K_03():  # C06  schedule node with queue capacity 1 and 2 servers never holds more than 1 customer
    N = ciw.create_network(arrival_distributions=[E(5)], service_distributions=[E(1)],
        number_of_servers=[ciw.Schedule(numbers_of_servers=[2], shift_end_dates=[100])], queue_capacities=[1])
    ciw.seed(0); Q = ciw.Simulation(N); mx = 0
    for _ in _steps(Q, 3000): mx = max(mx, Q.nodes[1].number_of_individuals)
    return "node_capacity=%s servers=%s max population=%s" % (Q.nodes[1].node_capacity, Q.nodes[1].c, mx)

def K_04():  # C02/C13  stale reneging date after a priority pre-emption: renege scheduled in the past
    N = ciw.create_network(arrival_distributions={'A': [E(1)], 'B': [E(1)]}, service_distributions={'A': [E(1)], 'B': [E(0.2)]},
        number_of_servers=[1], priority_classes=({'A': 0, 'B': 1}, ['resume']),
        reneging_time_distributions={'A': [None], 'B': [D(0.5)]})
    ciw.seed(0); Q = ciw.Simulation(N)
    back = [(t0, t1) for t0, t1, _ in _steps(Q, 3000) if t1 < t0]
    return "clock went backwards %d times, first %s" % (len(back), back[:1])

def K_05():  # C16  utilisation of a split run differs from the unsplit run
    def mk():
        N = ciw.create_network(arrival_distributions=[E(1.0)], service_distributions=[E(1.5)], number_of_servers=[1])
        ciw.seed(3); return ciw.Simulation(N)
    Q1 = mk(); Q1.simulate_until_max_time(50); Q2 = mk()
    for T in (10, 20, 30, 40, 50): Q2.simulate_until_max_time(T)
    return Q1.nodes[1].server_utilisation, Q2.nodes[1].server_utilisation

def K_06():  # C09  number_in_service drifts by -1 per pre-emptive reroute
    N = ciw.create_network(arrival_distributions={'A': [E(1.0)], 'B': [E(1.0)]}, service_distributions={'A': [E(2.0)], 'B': [E(2.0)]},
        number_of_servers=[1], priority_classes=({'A': 0, 'B': 1}, ['reroute']))
    ciw.seed(0); Q = ciw.Simulation(N); Q.simulate_until_max_time(200); nd = Q.nodes[1]
    return "number_in_service=%d, actually in service=%d" % (nd.number_in_service, len([i for i in nd.all_individuals if i.server]))

def K_07():  # C09  interrupted-and-blocked customer decrements number_in_service twice
    N = ciw.create_network(arrival_distributions=[S([5, inf]), S([1, inf])], service_distributions=[D(1), D(9)],
        number_of_servers=[ciw.Schedule(numbers_of_servers=[1, 0], shift_end_dates=[8, 200], preemption='resume'), 1],
        queue_capacities=[inf, 0], routing=[[0.0, 1.0], [0.0, 0.0]])
    Q = ciw.Simulation(N); Q.simulate_until_max_time(35)
    return "empty system, number_in_service=%s" % [nd.number_in_service for nd in Q.transitive_nodes]

def _twice(mk, key, T):
    N = mk(); out = []
    for net in (N, N, mk()):
        ciw.seed(5); Q = ciw.Simulation(net); Q.simulate_until_max_time(T); out.append([key(r) for r in Q.get_all_records()])
    return "first use == fresh: %s, second use == fresh: %s" % (out[0] == out[2], out[1] == out[2])

def K_08():  # C15  Sequential reneging distribution shared by all simulations of one Network
    return _twice(lambda: ciw.create_network(arrival_distributions=[E(3.0)], service_distributions=[E(1.0)], number_of_servers=[1],
        reneging_time_distributions=[S([0.1, 0.5, 2.0])]), lambda r: (r.id_number, r.record_type, r.exit_date), 10.1)

def K_09():  # C15  Cycle router state shared by all simulations of one Network
    return _twice(lambda: ciw.create_network(arrival_distributions=[E(1.0), None, None], service_distributions=[E(2.0)] * 3,
        number_of_servers=[1, 1, 1], routing=ciw.routing.NetworkRouting(routers=[ciw.routing.Cycle(cycle=[2, 3, -1]),
        ciw.routing.Leave(), ciw.routing.Leave()])), lambda r: (r.id_number, r.node, r.destination), 10.3)

def K_10():  # C17  NodeClassMatrix goes negative under class change after service
    N = ciw.create_network(arrival_distributions={'A': [E(2.0)], 'B': [None]}, service_distributions={'A': [E(4.0)], 'B': [E(4.0)]},
        number_of_servers=[1], class_change_matrices=[{'A': {'A': 0.0, 'B': 1.0}, 'B': {'A': 0.0, 'B': 1.0}}])
    ciw.seed(0); Q = ciw.Simulation(N, tracker=ciw.trackers.NodeClassMatrix()); Q.simulate_until_max_time(50)
    return Q.statetracker.state

def K_11():  # C07  a pre-emptive reroute frees a place but the customer blocked towards the node stays blocked
    N = ciw.create_network(arrival_distributions={'A': [None, None], 'B': [S([0.1, 0.1, inf]), S([0.3, inf])]},
        service_distributions={'A': [D(5.0), D(0.1)], 'B': [D(100.0), D(0.1)]}, number_of_servers=[1, 1], queue_capacities=[1, inf],
        routing={'A': [[0.0, 0.0], [1.0, 0.0]], 'B': [[0.0, 0.0], [1.0, 0.0]]},
        priority_classes=({'A': 0, 'B': 1}, ['reroute', False]), class_change_time_distributions={'B': {'A': D(1.0)}})
    Q = ciw.Simulation(N)
    for nd in Q.transitive_nodes: nd.next_class_change_ind = None      # step over F-01
    Q.simulate_until_max_time(20)
    return [(r.id_number, r.node, r.record_type, r.exit_date, r.time_blocked) for r in Q.get_all_records()]

def K_12():  # C09  PSNode never increments number_in_service but every release decrements it: JSQ sees phantom queues
    N = ciw.create_network(arrival_distributions=[E(2.0), None, None], service_distributions=[E(10.0), E(1.5), E(1.5)],
        number_of_servers=[1, 2, 2], routing=ciw.routing.NetworkRouting(routers=[
            ciw.routing.JoinShortestQueue(destinations=[2, 3], tie_break='order'), ciw.routing.Leave(), ciw.routing.Leave()]))
    ciw.seed(0); Q = ciw.Simulation(N, node_class=[ciw.Node, ciw.PSNode, ciw.Node]); Q.simulate_until_max_time(200)
    recs = Q.get_all_records()
    return "PS node number_in_service=%d; JSQ(order) sent %d to PS node 2, %d to node 3" % (Q.nodes[2].number_in_service,
        len([r for r in recs if r.node == 1 and r.destination == 2]), len([r for r in recs if r.node == 1 and r.destination == 3]))

def K_13():  # C07/C14  a blocked customer is chosen as pre-emption victim: later AttributeError / ValueError
    out = []
    for opt in ("resample", "restart", "resume", "reroute"):
        bad, first = 0, None
        for seed in range(10):
            N = ciw.create_network(arrival_distributions={'A': [E(2.0), None], 'B': [E(2.0), None]},
                service_distributions={'A': [E(3.0), E(1.0)], 'B': [E(3.0), E(1.0)]},
                routing={'A': [[0.0, 1.0], [0.0, 0.0]], 'B': [[0.0, 1.0], [0.0, 0.0]]},
                number_of_servers=[2, 1], queue_capacities=[inf, 1], priority_classes=({'A': 0, 'B': 1}, [opt, False]))
            ciw.seed(seed)
            try: ciw.Simulation(N).simulate_until_max_time(300)
            except Exception as e:
                bad += 1; first = first or "%s: %s" % (type(e).__name__, e)
        out.append("%s: %d/10 runs crash (%s)" % (opt, bad, first))
    return out

ALL = {k.replace("_", "-"): v for k, v in list(globals().items()) if k[:2] in ("F_", "K_")}
if __name__ == "__main__":
    def _alarm(s, f): raise TimeoutError("hang (5 s)")
    signal.signal(signal.SIGALRM, _alarm)
    for fid in (sys.argv[1:] or sorted(ALL)):
        signal.alarm(5)
        try:
            print(fid, "->", ALL[fid]())
        except Exception as e:
            tb = traceback.extract_tb(e.__traceback__)[-1]
            print(fid, "-> EXC %s: %s   at %s:%s" % (type(e).__name__, e, tb.filename, tb.lineno))
        signal.alarm(0)
